"""Which functions (contracts) and which bounded stand-in decide each property."""

ENGINE_NOTE = ("own VC generator: Python ast of the real source (re-read every run) -> symbolic execution against sidecar contracts "
               "(contracts/*.py) -> z3, cvc5 on unknowns; counter-models are shrunk, concretised and replayed on the real code; "
               "a native bounded layer (native/) stands in, labelled, for clauses no contract decides")
NOT_BUILT = {}
STD_NOTE = ("Assumed (listed in evidence.trusted_base): CPython semantics as encoded by pyvc (A-PY), attribute kinds of contracts/schema.py "
            "(A-SCHEMA), closed class world (A-CLOSED), logging/warnings are no-ops (A-LOG), string builtins as uninterpreted functions with "
            "the listed facts (A-STR/A-CHR)")

W = "bibtexparser.writer."
RE = "bibtexparser.middlewares.enclosing.RemoveEnclosingMiddleware."
AE = "bibtexparser.middlewares.enclosing.AddEnclosingMiddleware."
MO = "bibtexparser.middlewares.month."
LB = "bibtexparser.library.Library."
EN = "bibtexparser.model.Entry."
EPT = "bibtexparser.entrypoint."
IP = "bibtexparser.middlewares.interpolate."
SP = "bibtexparser.splitter.Splitter."
SPLIT_SCANNERS = [SP + "_next_mark", SP + "_move_to_closed_bracket", SP + "_move_to_comma_or_closing_curly_bracket", SP + "_move_to_end_of_entry"]
SPLIT_HANDLERS = [SP + "_handle_explicit_comment", SP + "_handle_preamble", SP + "_handle_string", SP + "_handle_entry"]
SPLIT_LEMMAS = ["nls-run", "nls-monotone", "bal-skips-newlines", "field-state-skips-newlines", "slice-is-region"]
MARK_NOTE = (STD_NOTE + "; A-RE (ASSUMED, validated bounded every run by native/a_re.py against the pattern the running code passes to re.finditer): "
             "the marks are non-empty, ordered, non-overlapping, each one of { } \" , = newline or an '@word' directly followed by a '{' mark; "
             "match objects and the iterator are modelled by ghost arrays and a ghost cursor (pyvc/marks.py); Splitter._end_implicit_comment "
             "is verified in full (50 obligations); what str.rstrip does to the rest of a free-text region -- removes exactly the trailing whitespace, "
             "returns '' exactly for an all-whitespace string -- is a fact about the builtin that is stated, not proved (A-STR); Library.add / Library() enter through their C08 contracts (add re-proved for fail_on_duplicate_key=False: no exception)")
PROPS = {
    "C01": {
        "level": "other",
        "level_text": "Mixed. Proved on the real splitter functions, for every mark sequence of any length (A-RE assumed): Splitter.split raises nothing and terminates (a decreasing measure over the marks on every loop: split, _next_mark, the three scanners); every block handler raises nothing but BlockAbortedException, which split turns into a ParsingFailedBlock carrying the error and raw = text[start of '@' : end_index] with start <= end_index; the parser-state / regex-mismatch branches are dead code; _next_mark's newline skipping is a loop (no recursion depth); Library.add is called so that it cannot raise. Bounded (native, labelled): parse_string / write_string end to end (middleware stacks, writer on failed blocks, deepcopy of errors), arbitrary Unicode, size-scaled families, hangs.",
        "level_note": MARK_NOTE,
        "modules": ["schema", "library", "model", "splitter"],
        "functions": SPLIT_SCANNERS + SPLIT_HANDLERS + [SP + "split#new", SP + "split#into", SP + "_end_implicit_comment", SP + "_end_implicit_comment#for-split", LB + "add#single-quiet", LB + "__init__#empty"],
        "lemmas": SPLIT_LEMMAS,
        "native": "p01",
        "assumption_checks": ["A-RE"],
        "explanation": "proved: split() is exception-free and terminating for every mark sequence, handlers only abort with BlockAbortedException, aborts become failed blocks; bounded: parse_string/write_string end to end, Unicode, size families",
    },
    "C02": {
        "level": "other",
        "level_text": "Mixed. Proved on the real splitter functions at the level of marks (A-RE assumed), for every text: the balanced-brace scanner returns the first '}' at brace balance 0; the field-value scanner implements exactly the quote/brace state machine (a quote toggles only outside braces, braces inside quotes are counted separately) and stops at the first ',' or '}' outside quotes and braces; the entry scanner returns one fresh Field per `key = value` in source order with value = the stripped text between '=' and that stop mark, key = the stripped text from the previous comma (or the entry body start) to the '=' with no other mark in between; @comment/@preamble/@string/entry handlers return blocks whose type, key, value/comment and raw are the stated slices of the text. Bounded (native, labelled): that grammar-derived documents produce those mark sequences (the grammar lemma), implicit comments, block order in the library end to end.",
        "level_note": MARK_NOTE,
        "modules": ["schema", "splitter"],
        "functions": SPLIT_SCANNERS + SPLIT_HANDLERS,
        "lemmas": SPLIT_LEMMAS,
        "native": "p02",
        "assumption_checks": ["A-RE"],
        "explanation": "proved: scanner state machines and the slices that become keys, values, comments and raw texts; bounded: grammar-derived documents end to end (grammar lemma), implicit comments, block order",
    },
    "C03": {
        "level": "other",
        "level_text": "Mixed. Proved on the real splitter functions (A-RE assumed): the line counter equals the number of newline marks consumed minus one at every call boundary (scan invariant), every block's start_line is the line of its '@' mark and every field's start_line the line of its '='; raw of a block is text[start of '@' : end of its closing '}'], raw of a failed block is text[start of '@' : end_index] where end_index is the start of the handed-back mark or the end of the text, the next free text starts exactly there (no character between a failed block and what follows is dropped or shared), and the pending free-text start never lies beyond unconsumed text; TILING as a postcondition of split(): ghost code records one region of the text per step -- the free text handed to _end_implicit_comment and the raw text of every block or failed block added to the library -- and the regions are consecutive, start at 0, end at the end of the text, and the raw of every block region is exactly that piece of the text (also through Library.add's duplicate wrappers), so no character lies in two regions or in none. Inside a free-text region (_end_implicit_comment, verified in full): every character before the scan position `lead` is whitespace, nothing is returned exactly when nothing is pending or region[lead:].rstrip() is empty, otherwise raw = comment = region[lead:].rstrip() (non-empty) and the start line is the pending line plus the newlines before lead. Bounded (native, labelled): the two facts about str.rstrip that turn this into 'only whitespace is dropped' (A-STR), CRLF / backslash-newline families, that every newline character is a newline mark (R5 of A-RE, validated bounded).",
        "level_note": MARK_NOTE,
        "modules": ["schema", "library", "model", "splitter"],
        "functions": SPLIT_SCANNERS + SPLIT_HANDLERS + [SP + "split#new", SP + "split#into", SP + "_end_implicit_comment", SP + "_end_implicit_comment#for-split", LB + "add#single-quiet", LB + "_cast_to_duplicate", LB + "_add_to_dicts"],
        "tags": ["C03", "C09", "C08"],
        "lemmas": SPLIT_LEMMAS,
        "native": "p03",
        "assumption_checks": ["A-RE"],
        "explanation": "proved: line counting, start lines, raw boundaries, and the tiling of the text by free-text regions and block raw texts as a postcondition of split(); bounded: the semantics of str.rstrip inside free-text regions (A-STR), CRLF/backslash families",
    },
    "C04": {
        "level": "other",
        "level_text": "Mixed. Proved on the real splitter functions (A-RE assumed): marks are consumed strictly left to right (the cursor never decreases), at most one mark is pending and it is the one yielded last; no scanner or handler ever consumes an '@' mark: on meeting one it hands it back and aborts with end_index = its start, so split's next iteration starts a block exactly there; after every block or failure the scanner state is reset and nothing is pending except such a handed-back mark; at the end all marks are consumed; the blocks of successive block regions of the text sit at successive positions of the library (source order, ghost regions of split()). Bounded (native, labelled): equality of the blocks of D1+X+D2 with those of D1 and D2 (needs the grammar lemma for D1/D2), random corruptions.",
        "level_note": MARK_NOTE,
        "modules": ["schema", "library", "model", "splitter"],
        "functions": SPLIT_SCANNERS + SPLIT_HANDLERS + [SP + "split#new", SP + "split#into", SP + "_end_implicit_comment", SP + "_end_implicit_comment#for-split"],
        "lemmas": SPLIT_LEMMAS,
        "native": "p04",
        "assumption_checks": ["A-RE"],
        "explanation": "proved: left-to-right consumption, hand-back of every '@' mark by every scanner, resync of split at the handed-back mark; bounded: block equality of D1+X+D2 versus D1 and D2",
    },
    "C09": {
        "level": "other",
        "level_text": "Mixed. Proved (contracts on the real functions): insertion never overwrites the key index -- a later Entry/String whose key is indexed comes back as a fresh DuplicateBlockKeyBlock exposing the key, the FIRST (live) block and the complete duplicate, entries and strings use separate indexes, other blocks pass through (Library._add_to_dicts, _cast_to_duplicate, add: one block appended per argument at its own position, the class invariant of C08 kept); both duplicate wrappers keep what they were given (constructors). Bounded (native, labelled): the number of returned blocks equals the number of source blocks for grammar-derived documents (needs the grammar lemma), the splitter's duplicate-field tracking end to end.",
        "level_note": STD_NOTE + "; A-EQ (Block.__eq__ structural) assumed in Library.add; sorted()/set-to-list as assumed builtin contracts.",
        "modules": ["schema", "library", "model", "splitter"],
        "functions": [LB + "_cast_to_duplicate", LB + "_add_to_dicts", LB + "add#single", LB + "add#list",
                      "bibtexparser.model.DuplicateFieldKeyBlock.__init__", "bibtexparser.model.DuplicateBlockKeyBlock.__init__",
                      SP + "_move_to_end_of_entry", SP + "_handle_entry"],
        "lemmas": ["nls-run"],
        "assumption_checks": ["A-RE"],
        "native": "p09",
        "explanation": "proved: first-wins insertion with complete duplicate wrappers, separate indexes, wrapper constructors; bounded: block counts and duplicate-field tracking on grammar-derived documents",
    },
    "C17": {
        "level": "other",
        "level_text": "Mixed. Proved (contracts on the real functions; any entry whose Field objects are distinct; any keys): alphabetical sorting returns exactly the entry's Field objects, each once, in key order (code-point order), ties in source order, idempotent on sorted input, from the assumed stable-sort contract of sorted(); key normalisation makes every key the lower-cased old key, keys unique, each key keeps the Field object of its LAST occurrence, keys appear in the order of FIRST occurrences (loop invariant over the ordered-dict model), every old key is covered; both leave values, entry type and key untouched (frames). Bounded (native, labelled): custom-order sorting and the order-list validation (the sort key is a closure with exception control flow), idempotence of normalisation, other blocks untouched end to end.",
        "level_note": STD_NOTE + "; A-SORT: sorted() returns a stable permutation ordered by the key; ordered-dict semantics (A-DICT); str.lower uninterpreted (idempotent).",
        "modules": ["schema", "fieldorder"],
        "functions": ["bibtexparser.middlewares.sorting_entry_fields.SortFieldsAlphabeticallyMiddleware.transform_entry",
                      "bibtexparser.middlewares.fieldkeys.NormalizeFieldKeys.transform_entry"],
        "native": "p17",
        "explanation": "proved: alphabetical field sort (stable permutation by key, idempotent), key normalisation (lower-case, unique, last value wins, first-occurrence order, values intact); bounded: custom-order sort and its validation, idempotence of normalisation",
    },
    "C11": {
        "level": "other",
        "level_text": "Mixed. Proved (contracts on the real interpolate functions, in-place mode, any library whose entry fields are distinct objects): the exact resolution rule -- a str value that is not enclosed and is a key of the live @string index is replaced by that string's value object, every other field keeps its value object; String blocks, keys, types, raw, block list and the string index are outside the frame; the live @string per key is the first one by the library's first-wins index (C08/C09 contracts). Bounded (native, labelled): documents of the quantifier through parse_string (source text -> values needs the grammar lemma), copy mode, the recorded key list, order before enclosing removal end to end (the order itself is C20's default-stack clause).",
        "level_note": STD_NOTE + "; distinctness of Field objects is a precondition stated through an owner map; list comprehension (Library.entries) as assumed builtin contract.",
        "modules": ["schema", "interpolate"],
        "functions": [IP + "_value_is_nonstring_or_enclosed", IP + "ResolveStringReferencesMiddleware.transform"],
        "native": "p11",
        "explanation": "proved: resolution rule and frame of ResolveStringReferences.transform (in-place mode); bounded: documents through parse_string, copy mode, recorded keys",
    },
    "C20": {
        "level": "other",
        "level_text": "Mixed. Proved (contracts on the real entry-point functions, every argument form, stacks of any length): stack construction (given stack used as given; default parse stack = resolve-string-references then remove-enclosings, then append_middleware in order; prepend_middleware in order then the default copy-mode AddEnclosing('{') write stack; both a stack and an addition -> ValueError before any middleware runs) and application: the ghost trace of Middleware.transform calls is exactly the stack, left to right, each applied to the previous result, the first to the split result / the given library, and the writer receives the last result and the given format and its text is returned. Bounded (native, labelled): parse_file / write_file (file I/O is outside the modelled subset), BlockMiddleware's per-block splice protocol, probe stacks end to end.",
        "level_note": STD_NOTE + "; user middlewares are opaque: the virtual contract of Middleware.transform (may write anything reachable, returns a Library, records the call in a ghost trace) is ASSUMED for every override; Splitter.split and writer.write enter through interface contracts whose clauses (fresh / same library returned, nothing raised, footprint = the splitter's own attributes and the target library's contents) are proved for the real functions under C01 (split#new / split#into in contracts/splitter.py, frame obligations included) and C06; a fresh temporary list returned by a call and iterated directly is not retained elsewhere.",
        "modules": ["schema", "writer", "entrypoint"],
        "functions": [EPT + "_build_parse_stack#both-none", EPT + "_build_parse_stack#stack", EPT + "_build_parse_stack#append", EPT + "_build_parse_stack#both",
                      EPT + "_build_unparse_stack#both-none", EPT + "_build_unparse_stack#stack", EPT + "_build_unparse_stack#prepend", EPT + "_build_unparse_stack#both",
                      EPT + "parse_string#stack", EPT + "parse_string#append", EPT + "parse_string#both",
                      EPT + "write_string#stack", EPT + "write_string#prepend", EPT + "write_string#default", EPT + "write_string#both"],
        "native": "p20",
        "explanation": "proved: stack construction and left-to-right application via a ghost call trace, argument forwarding to the writer, ValueError before any call when both arguments are given; bounded: file wrappers, per-block splice protocol, end-to-end probes",
    },
    "C19": {
        "level": "other",
        "level_text": "Mixed. Proved (contracts on the real Entry methods and on Block/Field.__eq__, for every entry with distinct field keys and every key/value): each mapping operation is the ordered-dict operation on the view [(f.key, f)]: replace keeps the position, new keys append, removal closes the gap; fields_dict has the same keys in the same order; ENTRYTYPE/ID lookups; equality <=> same class and pairwise == attributes. Per-operation contracts over the representation invariant give the claim for every operation sequence. Bounded (native, labelled): operation sequences against a Python dict, single-attribute perturbation pairs, copy/deepcopy pairs, items() contents. One known finding (del of an absent key does not raise) is carved out exactly.",
        "level_note": STD_NOTE + "; instance __dict__ equality is modelled as pairwise == over the schema's attributes of the object's class; list/dict comprehension semantics as assumed builtin contracts.",
        "modules": ["schema", "model"],
        "functions": [EN + "fields_dict", EN + "set_field", EN + "pop", EN + "get", EN + "__contains__", EN + "__getitem__", EN + "__setitem__",
                      EN + "__delitem__", EN + "items", "bibtexparser.model.Block.__eq__", "bibtexparser.model.Field.__eq__"],
        "native": "p19",
        "explanation": "proved: per-operation ordered-map postconditions under the distinct-keys invariant, structural equality; bounded: sequences vs dict, perturbation pairs, copies; known finding: del entry[absent] does not raise KeyError",
    },
    "C08": {
        "level": "other",
        "level_text": "Mixed. Proved for every state satisfying the class invariant (contracts on the real Library methods, both argument forms): the invariant WF (held entries/strings are indexed under their key, index values are typed and keyed, no keyed block held twice) is kept by __init__, add, remove, replace and _add_to_dicts on normal AND exceptional exits -- which is a statement about every finite history; exact functional postconditions over the whole view (append position, first-equal removal with its index entry, replace keeps the position, first-wins duplicate wrapping, entries view, entries_dict is a copy); rollback of a failing remove(single) / replace(not held). Bounded (native histories, labelled): 'every index value is held' as a stand-alone invariant, rollback of the list forms, the five views partition blocks. Two known findings (K1, F11b) are carved out exactly and still reported.",
        "level_note": STD_NOTE + "; Block/Field.__eq__ is assumed structural (A-EQ: reflexive, equal blocks have equal class and key; proved for the repo's __eq__ under C19); list.remove/index/insert and dict semantics as assumed builtin contracts (A-DICT).",
        "modules": ["schema", "library"],
        "functions": [LB + "__init__#empty", LB + "_cast_to_duplicate", LB + "_add_to_dicts", LB + "add#single", LB + "add#list",
                      LB + "remove#single", LB + "remove#list", LB + "replace", LB + "entries", LB + "entries_dict"],
        "native": "p08",
        "explanation": "proved: class invariant on all exits, functional postconditions, rollback of remove/replace(not held); bounded: index values are held (existential witness), list-form rollback, view partition; known findings K1 (add fail_on_duplicate_key raises after mutating) and F11b (failing replace reorders the key index)",
    },
    "C15": {
        "level": "proof",
        "level_text": "The three result rules, type preservation of non-months, the absence of any exception and the shared 12-row table are postconditions / lemmas on the real resolve_month_field_val functions, discharged for every value (int or str) by z3; composition follows from the two composition lemmas; an exhaustive native enumeration of the finite part accompanies it.",
        "level_note": STD_NOTE + "; str.lower/isdigit/isascii/int() are uninterpreted with the facts listed (value on literals from CPython, [0-9]+ characterisation).",
        "modules": ["schema", "month"],
        "functions": [MO + "MonthLongStringMiddleware.resolve_month_field_val", MO + "MonthAbbreviationMiddleware.resolve_month_field_val",
                      MO + "MonthIntMiddleware.resolve_month_field_val", MO + "_MonthInterpolator.transform_entry"],
        "lemmas": ["C15.shared-table", "C15.compose-abbr", "C15.compose-long"],
        "native": "p15",
    },
    "C05": {
        "level": "other",
        "level_text": "Mixed. Proved (contracts on the real functions, shared with C10 / C20 / C06, re-discharged by this check): the default parse stack is resolve-string-references then remove-enclosings and the default write stack is copy-mode AddEnclosing('{') (stack builders, no-argument forms); a value brace-enclosed by the default write stack and stripped again by RemoveEnclosing is the value it was, for every string value (lemma default-then-strip), and a value whose enclosing was recorded is restored exactly (lemma reuse-restores); the writer emits `key = value` lines of the stated shape, so the field order and the block order of the written text are those of the library (C06 clauses). Bounded (native, labelled): the round trip itself -- that the written text re-parses to the same blocks and that writing again is a byte-for-byte fixpoint -- for grammar-derived documents x BibtexFormat settings (needs the grammar lemma to connect writer output to splitter marks).",
        "level_note": STD_NOTE + "; A-COPY (deepcopy), A-STR; the round-trip clause itself is decided bounded only.",
        "modules": ["schema", "enclosing", "writer", "entrypoint"],
        "tags": ["C05", "C10", "C20", "C06"],
        "functions": [RE + "_strip_enclosing", RE + "transform_entry", AE + "__init__", AE + "_enclose", AE + "transform_entry",
                      EPT + "_build_parse_stack#both-none", EPT + "_build_unparse_stack#both-none",
                      W + "_treat_entry", W + "_treat_string", W + "_treat_block", W + "write"],
        "lemmas": ["C10.reuse-restores", "C10.default-then-strip"],
        "native": "p05",
        "explanation": "proved: default stacks, enclose-then-strip identity, writer line shape and order (shared contracts); bounded: the parse-write-parse round trip and the fixpoint on grammar-derived documents x formats",
    },
    "C12": {
        "level": "other",
        "level_text": "Mixed. Proved (contracts on the real middleware shell, every entry with distinct Field objects): a name middleware replaces only the values of its configured name fields -- keys, the field list, every other field, entry type, key, raw and start line are untouched and the entry itself is returned --, an InvalidNameError from the per-value hook is contained in a fresh MiddlewareErrorBlock holding the entry; MergeCoAuthors joins a list of names with exactly ' and ' (TypeError iff an element is not a str) and returns any other value as it is. Bounded (native, labelled): split_multiple_persons_names itself (conservation, the separator rule, brace/escape/tilde protection, merge-split idempotence) against an independent reference splitter on bounded-exhaustive token sequences -- a character-level state machine over an iterator with StopIteration control flow, outside what pyvc models.",
        "level_note": STD_NOTE + "; the per-value hook _transform_field_value enters transform_entry through an ASSUMED virtual contract (reads its argument, writes nothing that existed, raises only InvalidNameError / ValueError); str.join as a recursive specification function (A-STR).",
        "modules": ["schema", "names"],
        "functions": ["bibtexparser.middlewares.names._NameTransformerMiddleware.transform_entry", "bibtexparser.middlewares.names.MergeCoAuthors._transform_field_value"],
        "native": "p12",
        "explanation": "proved: scope and error containment of the name-middleware shell, the ' and ' join of MergeCoAuthors; bounded: the splitting algorithm against a reference splitter",
    },
    "C13": {
        "level": "other",
        "level_text": "Mixed. Proved (contract on the real _NameTransformerMiddleware.transform_entry, shared by SplitNameParts): an invalid name reported by the parser (InvalidNameError) never escapes as an exception -- the result is a fresh MiddlewareErrorBlock that retains the original entry and the error --, only name fields are touched, the entry's identity (key, type, raw, start line) is untouched. Bounded (native, labelled): parse_single_name_into_parts itself (First/von/Last/Jr assignment, every word once, the invalid-name conditions) against an executable transcription of BibTeX's name algorithm on bounded-exhaustive token sequences -- ~280 lines of character-level state machine, outside what pyvc models.",
        "level_note": STD_NOTE + "; the per-value hook enters through an ASSUMED virtual contract (see C12).",
        "modules": ["schema", "names"],
        "functions": ["bibtexparser.middlewares.names._NameTransformerMiddleware.transform_entry"],
        "native": "p13",
        "explanation": "proved: containment of invalid names in middleware error blocks, scope of the middleware; bounded: the name-part algorithm against a BibTeX transcription",
    },
    "C14": {
        "level": "other",
        "level_text": "Mixed. Proved (contracts on the real middleware shell): scope and containment of all four name middlewares (shared transform_entry), MergeCoAuthors is the ' and ' join. Bounded (native, labelled): the inverse-pair statement itself -- separate + split, then merge parts + merge co-authors, re-separates and re-splits into the same persons and parts, through the function pair and through parse_string / write_string with the middlewares appended / prepended.",
        "level_note": STD_NOTE + "; the per-value hook enters through an ASSUMED virtual contract (see C12).",
        "modules": ["schema", "names"],
        "functions": ["bibtexparser.middlewares.names._NameTransformerMiddleware.transform_entry", "bibtexparser.middlewares.names.MergeCoAuthors._transform_field_value"],
        "native": "p14",
        "explanation": "proved: scope/containment of the name middlewares, the ' and ' join; bounded: the inverse-pair round trip",
    },
    "C18": {
        "level": "other",
        "level_text": "Mixed. Proved (contracts on the real string-transformer shell that both LaTeX middlewares inherit, every entry with distinct Field objects, every @string): only str field values, the four part lists of NameParts values and str @string values are replaced; a str stays a str, a NameParts keeps its identity and gets part lists of the same lengths, every other value is the same object as before; keys, the field list, entry type, key, raw text and start line are untouched; reported conversion failures yield a fresh MiddlewareErrorBlock holding the original entry / string and nothing is raised; the helper maps the conversion over a list element by element without touching its input; the two shipped conversion hooks let no exception of the third-party converter escape and turn it into (the unchanged text, a non-empty message), so a failure is never mistaken for success. Bounded (native, labelled): decode(encode(t)) == t over the stated alphabet and options (third-party converter, pylatexenc), other blocks end to end.",
        "level_note": STD_NOTE + "; the conversion hook _transform_python_value_string enters through an ASSUMED virtual contract (returns a pair of str, writes nothing, raises nothing): its two shipped overrides are verified against it; their converter objects are third-party (pylatexenc): A-EXT -- a converter method returns a str or raises some Exception and writes nothing the repository's objects can see; A-REPR -- repr() of an object is non-empty.",
        "modules": ["schema", "latex"],
        "functions": ["bibtexparser.middlewares.latex_encoding._PyStringTransformerMiddleware._transform_all_strings", "bibtexparser.middlewares.latex_encoding._PyStringTransformerMiddleware.transform_string", "bibtexparser.middlewares.latex_encoding._PyStringTransformerMiddleware.transform_entry",
                      "bibtexparser.middlewares.latex_encoding.LatexEncodingMiddleware._transform_python_value_string",
                      "bibtexparser.middlewares.latex_encoding.LatexDecodingMiddleware._transform_python_value_string"],
        "native": "p18",
        "explanation": "proved: scope, type preservation, untouched identity, error containment of the string-transformer shell; bounded: the encode/decode round trip and the converter-exception handling of the shipped hooks",
    },
    "C16": {
        "level": "other",
        "level_text": "Mixed. Proved (contract on the real SortBlocksByTypeAndKeyMiddleware._block_junks, every block list of any length): the grouping that keeps comments attached is a partition of the block list into consecutive junks -- concatenated they are the input, every block once and in order (ghost arrays record the boundaries); every junk but possibly the last ends with exactly one non-comment block and holds only comments before it, a trailing junk holds comments only; the sort key of a junk is the key of its main block when that block is an Entry, a String or a duplicate-key block, else the empty string; the input list is not modified. With the assumed stable-sort contract (A-SORT) this is what carries 'every run of comments directly above a non-comment block stays directly above that block in the same internal order'. Bounded (native, labelled): the sort itself and the resulting order by (type rank, key) with ties in original order, in both comment modes, the deep copy that leaves the input library unchanged (the sort keys are closures with exception control flow), block-type-order validation.",
        "level_note": STD_NOTE + "; dataclass construction (_BlockJunk) per the dataclass field declarations; block.key resolved per class (classes without a key raise AttributeError, which the function catches).",
        "modules": ["schema", "sortblocks"],
        "functions": ["bibtexparser.middlewares.sorting_blocks.SortBlocksByTypeAndKeyMiddleware._block_junks"],
        "native": "p16",
        "explanation": "proved: the comment-attaching partition (junks) and their sort keys; bounded: the sort order by (type, key), stability end to end, input unchanged",
    },
    "C07": {
        "level": "other",
        "level_text": "Mixed. Proved (contracts on the real middleware core, every library and block, every BlockMiddleware subclass): with allow_inplace_modification=False, BlockMiddleware.transform_block hands its per-type hook a fresh deep copy and never the block itself, and neither it nor BlockMiddleware.transform (which every block middleware inherits, and which the default write stack runs) modifies any object that existed when it was called -- the footprint of both copy-mode contracts is empty, so the frame obligations over every heap component are exactly 'the input library, its block list and indexes, every block, field, field list, value and metadata object are what they were'; transform returns a fresh Library built by Library(blocks) (one block per collected block, well formed). Bounded (native, labelled): that results share no mutable object with the input (aliasing through what hooks return), every shipped middleware class and option set end to end, LibraryMiddleware-based ones (the block sorter, string resolution in copy mode), write_string twice gives identical text, the format object.",
        "level_note": STD_NOTE + "; the five per-type hooks enter through ASSUMED virtual contracts: a hook given a block allocated after the ghost mark `base` writes only into objects allocated after that mark (locality of hooks + A-COPY: everything reachable from a deep copy is allocated by the copy) and returns what the documentation allows (None, a Block, a list / tuple of allocated objects); A-EQ in Library.add.",
        "modules": ["schema", "library", "model", "middleware"],
        "functions": ["bibtexparser.middlewares.middleware.BlockMiddleware.transform_block#copy", "bibtexparser.middlewares.middleware.BlockMiddleware.transform#copy",
                      LB + "__init__#blocks", LB + "add#list-quiet"],
        "tags": ["C07", "C08"],
        "native": "p07",
        "explanation": "proved: copy-mode transform_block / transform of every block middleware write to no pre-existing object and hand hooks a deep copy (under the stated hook-locality assumption); bounded: no sharing between result and input, every shipped class end to end, library-level middlewares, write_string twice",
    },
    "C10": {
        "level": "other",
        "level_text": "Mixed. Proved for all values and option combinations (contracts on the 7 real functions + 2 lemmas, 95 obligations): exactly one layer is stripped and its kind recorded, reuse restores the original, default enclosing, integer rule, no exception, frames. Bounded (native, labelled): an enclosed value written into an entry re-parses as one field (needs the grammar lemma).",
        "level_note": STD_NOTE + "; str.strip as an uninterpreted function (idempotent, identity when both end characters are not whitespace).",
        "modules": ["schema", "enclosing"],
        "functions": [RE + "_strip_enclosing", RE + "transform_entry", RE + "transform_string",
                      AE + "__init__", AE + "_enclose", AE + "transform_entry", AE + "transform_string"],
        "lemmas": ["C10.reuse-restores", "C10.default-then-strip"],
        "native": "p10",
        "explanation": "proved: one-layer strip with recorded kind, reuse restores, default enclosing, integer rule, no exception (contracts on the real functions + two lemmas); bounded: re-parse of enclosed values (native layer)",
    },
    "C06": {
        "level": "proof",
        "level_text": "Every clause of the statement is a postcondition / loop invariant on the real writer functions (12 functions, 146 obligations) discharged by z3 for all libraries, formats and field counts; a bounded native layer re-checks the same clauses against a reference renderer.",
        "level_note": STD_NOTE + "; str.format/splitlines/' '*n/join as uninterpreted functions (A-STR); copy.deepcopy as a fresh isomorphic copy (A-COPY).",
        "modules": ["schema", "writer"],
        "functions": [W + "_val_intent_string", W + "_treat_entry", W + "_treat_string", W + "_treat_preamble",
                      W + "_treat_impl_comment", W + "_treat_expl_comment", W + "_treat_failed_block", W + "_treat_block",
                      W + "_calculate_auto_value_align", W + "write", W + "BibtexFormat.__init__",
                      W + "BibtexFormat.value_column.setter"],
        "native": "p06",
        "trusted": ["A-STR (format, splitlines, ' ' * n, join)", "A-COPY (deepcopy of the format object)"],
        "proved_clauses": "separator rule, block order, field line shape, padding/column, comma rule, auto column (bound + attained), failed blocks under the configured comment, format object unchanged, setter validation",
        "bounded_clauses": "none of the statement; the bounded layer re-checks the same clauses natively against a reference renderer",
    },
}
