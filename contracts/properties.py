"""Which functions (contracts) and which bounded stand-in decide each property."""

W = "bibtexparser.writer."
RE = "bibtexparser.middlewares.enclosing.RemoveEnclosingMiddleware."
AE = "bibtexparser.middlewares.enclosing.AddEnclosingMiddleware."
PROPS = {
    "C10": {
        "level": "other",
        "modules": ["schema", "enclosing"],
        "functions": [RE + "_strip_enclosing", RE + "transform_entry", RE + "transform_string",
                      AE + "__init__", AE + "_enclose", AE + "transform_entry", AE + "transform_string"],
        "lemmas": ["C10.reuse-restores", "C10.default-then-strip"],
        "native": "p10",
        "explanation": "proved: one-layer strip with recorded kind, reuse restores, default enclosing, integer rule, no exception (contracts on the real functions + two lemmas); bounded: re-parse of enclosed values (native layer)",
    },
    "C06": {
        "level": "proof",
        "modules": ["schema", "writer"],
        "functions": [W + "_val_intent_string", W + "_treat_entry", W + "_treat_string", W + "_treat_preamble",
                      W + "_treat_impl_comment", W + "_treat_expl_comment", W + "_treat_failed_block", W + "_treat_block",
                      W + "_calculate_auto_value_align", W + "write", W + "BibtexFormat.__init__",
                      W + "BibtexFormat.value_column.setter"],
        "native": "p06",
        "trusted": ["A-STR (format, splitlines, ' ' * n, join)", "A-COPY (deepcopy of the format object)"],
        "proved_clauses": "separator rule, block order, field line shape, padding/column, comma rule, auto column (bound + attained), failed blocks under the configured comment, format object unchanged, setter validation",
        "bounded_clauses": "none of the statement; the bounded layer re-checks the same clauses natively against a reference renderer",
    },
}
