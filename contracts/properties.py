"""Which functions (contracts) and which bounded stand-in decide each property."""

ENGINE_NOTE = ("own VC generator: Python ast of the real source (re-read every run) -> symbolic execution against sidecar contracts "
               "(contracts/*.py) -> z3, cvc5 on unknowns; counter-models are shrunk, concretised and replayed on the real code; "
               "a native bounded layer (native/) stands in, labelled, for clauses no contract decides")
NOT_BUILT = {}
STD_NOTE = ("Assumed (listed in evidence.trusted_base): CPython semantics as encoded by pyvc (A-PY), attribute kinds of contracts/schema.py "
            "(A-SCHEMA), closed class world (A-CLOSED), logging/warnings are no-ops (A-LOG), string builtins as uninterpreted functions with "
            "the listed facts (A-STR/A-CHR)")

W = "bibtexparser.writer."
RE = "bibtexparser.middlewares.enclosing.RemoveEnclosingMiddleware."
AE = "bibtexparser.middlewares.enclosing.AddEnclosingMiddleware."
MO = "bibtexparser.middlewares.month."
PROPS = {
    "C15": {
        "level": "proof",
        "level_text": "The three result rules, type preservation of non-months, the absence of any exception and the shared 12-row table are postconditions / lemmas on the real resolve_month_field_val functions, discharged for every value (int or str) by z3; composition follows from the two composition lemmas; an exhaustive native enumeration of the finite part accompanies it.",
        "level_note": STD_NOTE + "; str.lower/isdigit/isascii/int() are uninterpreted with the facts listed (value on literals from CPython, [0-9]+ characterisation).",
        "modules": ["schema", "month"],
        "functions": [MO + "MonthLongStringMiddleware.resolve_month_field_val", MO + "MonthAbbreviationMiddleware.resolve_month_field_val",
                      MO + "MonthIntMiddleware.resolve_month_field_val"],
        "lemmas": ["C15.shared-table", "C15.compose-abbr", "C15.compose-long"],
        "native": None,
    },
    "C10": {
        "level": "other",
        "level_text": "Mixed. Proved for all values and option combinations (contracts on the 7 real functions + 2 lemmas, 95 obligations): exactly one layer is stripped and its kind recorded, reuse restores the original, default enclosing, integer rule, no exception, frames. Bounded (native, labelled): an enclosed value written into an entry re-parses as one field (needs the grammar lemma).",
        "level_note": STD_NOTE + "; str.strip as an uninterpreted function (idempotent, identity when both end characters are not whitespace).",
        "modules": ["schema", "enclosing"],
        "functions": [RE + "_strip_enclosing", RE + "transform_entry", RE + "transform_string",
                      AE + "__init__", AE + "_enclose", AE + "transform_entry", AE + "transform_string"],
        "lemmas": ["C10.reuse-restores", "C10.default-then-strip"],
        "native": "p10",
        "explanation": "proved: one-layer strip with recorded kind, reuse restores, default enclosing, integer rule, no exception (contracts on the real functions + two lemmas); bounded: re-parse of enclosed values (native layer)",
    },
    "C06": {
        "level": "proof",
        "level_text": "Every clause of the statement is a postcondition / loop invariant on the real writer functions (12 functions, 146 obligations) discharged by z3 for all libraries, formats and field counts; a bounded native layer re-checks the same clauses against a reference renderer.",
        "level_note": STD_NOTE + "; str.format/splitlines/' '*n/join as uninterpreted functions (A-STR); copy.deepcopy as a fresh isomorphic copy (A-COPY).",
        "modules": ["schema", "writer"],
        "functions": [W + "_val_intent_string", W + "_treat_entry", W + "_treat_string", W + "_treat_preamble",
                      W + "_treat_impl_comment", W + "_treat_expl_comment", W + "_treat_failed_block", W + "_treat_block",
                      W + "_calculate_auto_value_align", W + "write", W + "BibtexFormat.__init__",
                      W + "BibtexFormat.value_column.setter"],
        "native": "p06",
        "trusted": ["A-STR (format, splitlines, ' ' * n, join)", "A-COPY (deepcopy of the format object)"],
        "proved_clauses": "separator rule, block order, field line shape, padding/column, comma rule, auto column (bound + attained), failed blocks under the configured comment, format object unchanged, setter validation",
        "bounded_clauses": "none of the statement; the bounded layer re-checks the same clauses natively against a reference renderer",
    },
}
