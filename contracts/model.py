"""Contracts of bibtexparser/model.py (property C19; constructors used everywhere).

Abstract view of an entry: the ordered map [(f.key, f) for f in _fields] under the representation invariant
"field keys pairwise distinct" (the property's own assumption).  Every operation's postcondition is the
ordered-dict operation on that view; per-operation contracts over the invariant give the claim for every
operation sequence."""
from pyvc.api import contract, pred

E = "bibtexparser.model.Entry."


@pred
def distinct_keys(e):
    return forall((a, b), 0 <= a < b < len(e._fields), e._fields[a]._key != e._fields[b]._key)


@pred
def has_key(e, k):
    return exists(j, 0 <= j < len(e._fields), e._fields[j]._key == k)


@pred
def same_fields(e):
    """the field list is exactly what it was (same list object content)"""
    return len(e._fields) == old(len(e._fields)) and forall(i, 0 <= i < len(e._fields), same(e._fields[i], old(e._fields[i])))


@contract(E + "fields_dict")
class _:
    """fields_dict describes the same fields in the same order as `fields`"""
    sorts = {"self": "ref:Entry", "result": "dict:str:ref:Field"}
    requires = {"distinct-keys": "distinct_keys(self)"}
    ensures = {
        "C19.fd-fresh": "fresh(result)",
        "C19.fd-maps": "forall(j, 0 <= j < len(self._fields), self._fields[j]._key in result and same(result[self._fields[j]._key], self._fields[j]))",
        "C19.fd-only": "forall(k, 'str', k in result, has_key(self, k))",
        "C19.fd-order": "len(result) == len(self._fields) and forall(t, 0 <= t < len(self._fields), dict_key_at(result, t) == self._fields[t]._key)",
    }
    raises = {}
    modifies = []


@contract(E + "set_field")
class _:
    """replacing keeps the position, a new key appends"""
    sorts = {"self": "ref:Entry", "field": "ref:Field"}
    requires = {"distinct-keys": "distinct_keys(self)"}
    ensures = {
        "C19.set-replace": "forall(j, 0 <= j < old(len(self._fields)) and old(self._fields[j]._key) == field._key, len(self._fields) == old(len(self._fields)) and same(self._fields[j], field) and forall(i, 0 <= i < len(self._fields) and i != j, same(self._fields[i], old(self._fields[i]))))",
        "C19.set-append": "implies(not old(has_key(self, field._key)), len(self._fields) == old(len(self._fields)) + 1 and same(self._fields[old(len(self._fields))], field) and forall(i, 0 <= i < old(len(self._fields)), same(self._fields[i], old(self._fields[i]))))",
        "C19.set-list-identity": "same(self._fields, old(self._fields))",
    }
    raises = {}
    modifies = ["@content(self._fields)"]


@contract(E + "pop")
class _:
    """removal returns the field (or the default) and closes the gap, keeping the order of the others"""
    sorts = {"self": "ref:Entry", "key": "str", "default": "any", "result": "any"}
    requires = {"distinct-keys": "distinct_keys(self)"}
    ensures = {
        "C19.pop-present": "forall(j, 0 <= j < old(len(self._fields)) and old(self._fields[j]._key) == key, same(result, old(self._fields[j])) and len(self._fields) == old(len(self._fields)) - 1 and forall(i, 0 <= i < j, same(self._fields[i], old(self._fields[i]))) and forall(i, j <= i < len(self._fields), same(self._fields[i], old(self._fields[i + 1]))))",
        "C19.pop-absent": "implies(not old(has_key(self, key)), same(result, default) and len(self._fields) == old(len(self._fields)) and forall(i, 0 <= i < len(self._fields), same(self._fields[i], old(self._fields[i]))))",
    }
    raises = {}
    modifies = ["@self._fields"]


@contract(E + "get")
class _:
    sorts = {"self": "ref:Entry", "key": "str", "default": "any", "result": "any"}
    requires = {"distinct-keys": "distinct_keys(self)"}
    ensures = {
        "C19.get-present": "forall(j, 0 <= j < len(self._fields) and self._fields[j]._key == key, same(result, self._fields[j]))",
        "C19.get-absent": "implies(not has_key(self, key), same(result, default))",
    }
    raises = {}
    modifies = []


@contract(E + "__contains__")
class _:
    sorts = {"self": "ref:Entry", "key": "str", "result": "bool"}
    requires = {"distinct-keys": "distinct_keys(self)"}
    ensures = {"C19.contains": "result == has_key(self, key)"}
    raises = {}
    modifies = []


@contract(E + "__getitem__")
class _:
    """ENTRYTYPE / ID return type and key; other keys the field's value; a missing key raises KeyError"""
    sorts = {"self": "ref:Entry", "key": "str", "result": "any"}
    requires = {"distinct-keys": "distinct_keys(self)",
                "no-reserved-field": "forall(j, 0 <= j < len(self._fields), self._fields[j]._key != 'ENTRYTYPE' and self._fields[j]._key != 'ID')"}
    ensures = {
        "C19.item-type": "implies(key == 'ENTRYTYPE', isstr(result) and sval(result) == self._entry_type)",
        "C19.item-id": "implies(key == 'ID', isstr(result) and sval(result) == self._key)",
        "C19.item-field": "forall(j, 0 <= j < len(self._fields) and self._fields[j]._key == key, same(result, self._fields[j]._value))",
    }
    raises = {"KeyError": {"when": "key != 'ENTRYTYPE' and key != 'ID' and not has_key(self, key)"}}
    modifies = []


@contract(E + "__setitem__")
class _:
    sorts = {"self": "ref:Entry", "key": "str", "value": "any"}
    requires = {"distinct-keys": "distinct_keys(self)"}
    ensures = {
        "C19.setitem-replace": "forall(j, 0 <= j < old(len(self._fields)) and old(self._fields[j]._key) == key, len(self._fields) == old(len(self._fields)) and fresh(self._fields[j]) and self._fields[j]._key == key and same(self._fields[j]._value, value) and forall(i, 0 <= i < len(self._fields) and i != j, same(self._fields[i], old(self._fields[i]))))",
        "C19.setitem-append": "implies(not old(has_key(self, key)), len(self._fields) == old(len(self._fields)) + 1 and fresh(self._fields[old(len(self._fields))]) and self._fields[old(len(self._fields))]._key == key and same(self._fields[old(len(self._fields))]._value, value) and forall(i, 0 <= i < old(len(self._fields)), same(self._fields[i], old(self._fields[i]))))",
    }
    raises = {}
    modifies = ["@content(self._fields)"]


@contract(E + "__delitem__")
class _:
    """item deletion closes the gap; deleting a key that is not a field raises KeyError like a dict"""
    sorts = {"self": "ref:Entry", "key": "str"}
    requires = {"distinct-keys": "distinct_keys(self)"}
    ensures = {
        "C19.del-present": "forall(j, 0 <= j < old(len(self._fields)) and old(self._fields[j]._key) == key, len(self._fields) == old(len(self._fields)) - 1 and forall(i, 0 <= i < j, same(self._fields[i], old(self._fields[i]))) and forall(i, j <= i < len(self._fields), same(self._fields[i], old(self._fields[i + 1]))))",
    }
    raises = {"KeyError": {"when": "not has_key(self, key)", "tag": "C19.del-absent"}}
    modifies = ["@self._fields"]


@contract(E + "items")
class _:
    sorts = {"self": "ref:Entry", "result": "list:any"}
    ensures = {
        "C19.items-len": "len(result) == len(self._fields) + 2",
        "C19.items-fresh": "fresh(result)",
    }
    raises = {}
    modifies = []


def _eq_contract(cls):
    return dict(
        sorts={"self": f"ref:{cls}", "other": "any", "result": "bool"},
        ensures={
            "C19.eq-structural": "result == (isinstance(other, %s) and same_class(self, other) and self.__dict__ == as_ref(other, 'ref:%s').__dict__)" % (cls, cls),
            "C19.eq-reflexive-on-copy": "implies(isinstance(other, %s) and same_class(self, other) and self.__dict__ == as_ref(other, 'ref:%s').__dict__, result)" % (cls, cls),
        },
        raises={}, modifies=[], allocates=False)


@contract("bibtexparser.model.Block.__eq__")
class _:
    """two blocks are equal exactly when they have the same class and pairwise == attributes"""
    locals_ = None
    sorts = _eq_contract("Block")["sorts"]
    ensures = _eq_contract("Block")["ensures"]
    raises = {}
    modifies = []
    allocates = False


@contract("bibtexparser.model.Field.__eq__")
class _:
    sorts = _eq_contract("Field")["sorts"]
    ensures = _eq_contract("Field")["ensures"]
    raises = {}
    modifies = []
    allocates = False


@contract("bibtexparser.model.DuplicateFieldKeyBlock.__init__")
class _:
    """the duplicate-field wrapper exposes the complete entry (every field occurrence stays in it) and the keys"""
    sorts = {"self": "ref:DuplicateFieldKeyBlock", "duplicate_keys": "set:str", "entry": "ref:Entry"}
    ensures = {
        "C09.dupfield-entry": "same(self._ignore_error_block, entry)",
        "C09.dupfield-keys": "same(as_ref(self._duplicate_keys, 'set:str'), duplicate_keys)",
        "C09.dupfield-raw": "same(self._raw, entry._raw) and same(self._start_line_in_file, entry._start_line_in_file)",
        "C09.dupfield-entry-untouched": "unchanged('Entry._fields') and unchanged('list:ref:Field') and unchanged('Field._key') and unchanged('Field._value') and unchanged('Entry._key')",
    }
    raises = {}
    modifies = ["@self._start_line_in_file", "@self._raw", "@self._parser_metadata", "@self._error", "@self._ignore_error_block", "@self._duplicate_keys"]


@contract("bibtexparser.model.DuplicateBlockKeyBlock.__init__")
class _:
    sorts = {"self": "ref:DuplicateBlockKeyBlock", "key": "str", "previous_block": "ref:Block", "duplicate_block": "ref:Block",
             "start_line": "any", "raw": "any"}
    ensures = {
        "C09.dupkey-fields": "self._key == key and same(self._previous_block, previous_block) and same(self._ignore_error_block, duplicate_block)",
        "C09.dupkey-raw": "same(self._raw, raw) and same(self._start_line_in_file, start_line)",
    }
    raises = {}
    modifies = ["@self._start_line_in_file", "@self._raw", "@self._parser_metadata", "@self._error", "@self._ignore_error_block", "@self._key", "@self._previous_block"]
