"""Contracts of bibtexparser/entrypoint.py and of the middleware core (property C20; used by C01, C05, C07, C14).

User middlewares are opaque: `Middleware.transform` carries a *virtual* abstract contract (may write anything
reachable, returns a Library) and records the call in ghost arrays  mw_who / mw_in / mw_out  of length mw_n.
"Applies exactly the requested stack, in order" then is a statement about that ghost trace."""
from pyvc.api import contract, pred

EP = "bibtexparser.entrypoint."
MW = "bibtexparser.middlewares.middleware."

TRACE_PREFIX = ("forall(t, 0 <= t < old(ghost('mw_n')), ghost('mw_who', t) == old(ghost('mw_who', t)) and "
                "ghost('mw_in', t) == old(ghost('mw_in', t)) and ghost('mw_out', t) == old(ghost('mw_out', t)))")
GHOSTS = ["ghost:mw_n:int", "ghost:mw_who:arr", "ghost:mw_in:arr", "ghost:mw_out:arr"]


@contract(MW + "Middleware.transform")
class _:
    """ASSUMED abstract contract of every middleware (shipped or user-written): it may modify anything it can
    reach and returns a Library; the ghost trace records who was applied to what"""
    virtual = True
    trusted = True
    sorts = {"self": "ref:Middleware", "library": "ref:Library", "result": "ref:Library"}
    requires = {"trace-nonneg": "ghost('mw_n') >= 0"}
    ensures = {
        "trace-append": "ghost('mw_n') == old(ghost('mw_n')) + 1 and ghost('mw_who', old(ghost('mw_n'))) == ref_id(self) and ghost('mw_in', old(ghost('mw_n'))) == ref_id(library) and ghost('mw_out', old(ghost('mw_n'))) == ref_id(result)",
        "trace-prefix": TRACE_PREFIX,
    }
    raises = {"Exception": {"when": None, "frame": False}}
    modifies = ["*"] + GHOSTS


@pred
def applied_in_order(stack, n0, first_in):
    """the ghost trace from position n0 on is exactly `stack` applied left to right, each to the previous result"""
    return (ghost('mw_n') == n0 + len(stack)
            and forall(t, 0 <= t < len(stack), ghost('mw_who', n0 + t) == ref_id(stack[t]))
            and implies(len(stack) > 0, ghost('mw_in', n0) == first_in)
            and forall(t, 1 <= t < len(stack), ghost('mw_in', n0 + t) == ghost('mw_out', n0 + t - 1)))


@contract(EP + "_build_parse_stack#both-none")
class _:
    sorts = {"parse_stack": "none", "append_middleware": "none", "result": "list:ref:Middleware"}
    ensures = {"C20.default-parse-stack": "fresh(result) and len(result) == 2 and cls_is(result[0], 'ResolveStringReferencesMiddleware') and cls_is(result[1], 'RemoveEnclosingMiddleware') and fresh(result[0]) and fresh(result[1]) and result[0]._allow_inplace_modification and result[1]._allow_inplace_modification"}
    raises = {}
    modifies = []


@contract(EP + "_build_parse_stack#stack")
class _:
    """a given parse_stack is used exactly as given (a copy of the list)"""
    sorts = {"parse_stack": "list:ref:Middleware", "append_middleware": "none", "result": "list:ref:Middleware"}
    ensures = {"C20.given-stack": "fresh(result) and len(result) == len(parse_stack) and forall(t, 0 <= t < len(result), same(result[t], parse_stack[t]))"}
    raises = {}
    modifies = []


@contract(EP + "_build_parse_stack#append")
class _:
    """default stack followed by append_middleware in order"""
    sorts = {"parse_stack": "none", "append_middleware": "list:ref:Middleware", "result": "list:ref:Middleware"}
    ensures = {"C20.append": "fresh(result) and len(result) == 2 + len(append_middleware) and cls_is(result[0], 'ResolveStringReferencesMiddleware') and cls_is(result[1], 'RemoveEnclosingMiddleware') and fresh(result[0]) and fresh(result[1]) and forall(t, 0 <= t < len(append_middleware), same(result[2 + t], append_middleware[t]))"}
    raises = {}
    modifies = []


@contract(EP + "_build_parse_stack#both")
class _:
    """giving both a full stack and an addition raises ValueError"""
    sorts = {"parse_stack": "list:ref:Middleware", "append_middleware": "list:ref:Middleware", "result": "list:ref:Middleware"}
    ensures = {}
    raises = {"ValueError": {"when": "True"}}
    modifies = []


@contract(EP + "_build_unparse_stack#both-none")
class _:
    """the default write stack: one copy-mode AddEnclosing('{', no reuse, integers enclosed)"""
    sorts = {"unparse_stack": "none", "prepend_middleware": "none", "result": "list:ref:Middleware"}
    ensures = {"C20.default-unparse-stack": "fresh(result) and len(result) == 1 and cls_is(result[0], 'AddEnclosingMiddleware') and fresh(result[0]) and not result[0]._allow_inplace_modification and as_ref(result[0], 'ref:AddEnclosingMiddleware')._default_enclosing == '{' and not as_ref(result[0], 'ref:AddEnclosingMiddleware')._reuse_previous_enclosing and as_ref(result[0], 'ref:AddEnclosingMiddleware')._enclose_integers"}
    raises = {}
    modifies = []


@contract(EP + "_build_unparse_stack#stack")
class _:
    sorts = {"unparse_stack": "list:ref:Middleware", "prepend_middleware": "none", "result": "list:ref:Middleware"}
    ensures = {"C20.given-stack": "fresh(result) and len(result) == len(unparse_stack) and forall(t, 0 <= t < len(result), same(result[t], unparse_stack[t]))"}
    raises = {}
    modifies = []


@contract(EP + "_build_unparse_stack#prepend")
class _:
    """prepend_middleware in order, then the default write stack"""
    sorts = {"unparse_stack": "none", "prepend_middleware": "list:ref:Middleware", "result": "list:ref:Middleware"}
    ensures = {"C20.prepend": "fresh(result) and len(result) == len(prepend_middleware) + 1 and forall(t, 0 <= t < len(prepend_middleware), same(result[t], prepend_middleware[t])) and cls_is(result[len(prepend_middleware)], 'AddEnclosingMiddleware') and fresh(result[len(prepend_middleware)]) and not result[len(prepend_middleware)]._allow_inplace_modification"}
    raises = {}
    modifies = []


@contract(EP + "_build_unparse_stack#both")
class _:
    sorts = {"unparse_stack": "list:ref:Middleware", "prepend_middleware": "list:ref:Middleware", "result": "list:ref:Middleware"}
    ensures = {}
    raises = {"ValueError": {"when": "True"}}
    modifies = []


SPLITTER_ATTRS = ["Splitter._markiter", "Splitter._unaccepted_mark", "Splitter._current_line", "Splitter._current_char_index",
                  "Splitter._open_brackets", "Splitter._is_quote_open", "Splitter._expected_next", "Splitter._implicit_comment_start_line",
                  "Splitter._implicit_comment_start"]


@contract("bibtexparser.splitter.Splitter.split#new")
class _:
    """interface used by the entry points: without a target library a fresh one is returned.  The same clauses (result,
    no exception, footprint) are PROVED for the real function as split#new / split#into in contracts/splitter.py (check
    C01); here they are imported as an interface so that the mark model stays out of the entry-point proofs."""
    trusted = True
    sorts = {"self": "ref:Splitter", "library": "none", "result": "ref:Library"}
    ensures = {"split-target": "fresh(result)", "split-ghost": "ghost('split_out') == ref_id(result)"}
    raises = {}
    modifies = SPLITTER_ATTRS + ["ghost:split_out:int"]


@contract("bibtexparser.splitter.Splitter.split#into")
class _:
    trusted = True
    sorts = {"self": "ref:Splitter", "library": "ref:Library", "result": "ref:Library"}
    ensures = {"split-target": "same(result, library)", "split-ghost": "ghost('split_out') == ref_id(result)"}
    raises = {}
    modifies = SPLITTER_ATTRS + ["@content(library._blocks)", "@content(library._entries_by_key)", "@content(library._strings_by_key)", "ghost:split_out:int"]


def _loop(n0_expr):
    return {1: {"cursor": "_i", "iter_name": "stk",
                "invariant": {
                    "range": "0 <= _i <= len(stk)",
                    "trace-len": "ghost('mw_n') == old(ghost('mw_n')) + _i",
                    "trace-who": "forall(u, old(ghost('mw_n')) <= u < old(ghost('mw_n')) + _i, ghost('mw_who', u) == ref_id(stk[u - old(ghost('mw_n'))]))",
                    "trace-chain": "forall(u, old(ghost('mw_n')) + 1 <= u < old(ghost('mw_n')) + _i, ghost('mw_in', u) == ghost('mw_out', u - 1))",
                    "trace-first": f"implies(_i > 0, ghost('mw_in', old(ghost('mw_n'))) == {n0_expr})",
                    "current": f"implies(_i > 0, ghost('mw_out', old(ghost('mw_n')) + _i - 1) == ref_id(library)) and implies(_i == 0, ref_id(library) == {n0_expr})",
                    "prefix": TRACE_PREFIX,
                },
                "props": ("C20",)}}


def _stack_ensures(stack, first_in, tag):
    n = f"old(len({stack}))"
    return {
        f"C20.{tag}-applies-stack": f"ghost('mw_n') == old(ghost('mw_n')) + {n} and forall(t, 0 <= t < {n}, ghost('mw_who', old(ghost('mw_n')) + t) == old(ref_id({stack}[t])))",
        f"C20.{tag}-first-in": f"implies({n} > 0, ghost('mw_in', old(ghost('mw_n'))) == {first_in})",
        f"C20.{tag}-chain": f"forall(t, 0 <= t < {n} - 1, ghost('mw_in', old(ghost('mw_n')) + t + 1) == ghost('mw_out', old(ghost('mw_n')) + t))",
    }


PARSE_MOD = ["*"] + GHOSTS + ["ghost:split_out:int"]


@contract(EP + "parse_string#stack")
class _:
    """parse_string(text, parse_stack=S): splitting, then exactly S applied left to right, each to the previous result"""
    sorts = {"bibtex_str": "str", "parse_stack": "list:ref:Middleware", "append_middleware": "none", "library": "none", "result": "ref:Library"}
    requires = {"trace-nonneg": "ghost('mw_n') >= 0"}
    loops = _loop("ghost('split_out')")
    ensures = dict(_stack_ensures("parse_stack", "ghost('split_out')", "parse"),
                   **{"C20.parse-result": "implies(old(len(parse_stack)) > 0, ref_id(result) == ghost('mw_out', ghost('mw_n') - 1)) and implies(old(len(parse_stack)) == 0, ref_id(result) == ghost('split_out'))"})
    raises = {"Exception": {"when": None, "frame": False}}
    modifies = PARSE_MOD


@contract(EP + "parse_string#append")
class _:
    """parse_string(text, append_middleware=A): the default stack (resolve string references, then remove enclosings), then A in order"""
    sorts = {"bibtex_str": "str", "parse_stack": "none", "append_middleware": "list:ref:Middleware", "library": "none", "result": "ref:Library"}
    requires = {"trace-nonneg": "ghost('mw_n') >= 0"}
    loops = _loop("ghost('split_out')")
    ensures = {
        "C20.append-count": "ghost('mw_n') == old(ghost('mw_n')) + 2 + old(len(append_middleware))",
        "C20.append-default-first": "exists((a, b), 'ref:Middleware', fresh(a) and fresh(b) and cls_is(a, 'ResolveStringReferencesMiddleware') and cls_is(b, 'RemoveEnclosingMiddleware') and ghost('mw_who', old(ghost('mw_n'))) == ref_id(a) and ghost('mw_who', old(ghost('mw_n')) + 1) == ref_id(b))",
        "C20.append-then-given": "forall(t, 0 <= t < old(len(append_middleware)), ghost('mw_who', old(ghost('mw_n')) + 2 + t) == old(ref_id(append_middleware[t])))",
        "C20.append-first-in": "ghost('mw_in', old(ghost('mw_n'))) == ghost('split_out')",
        "C20.append-chain": "forall(t, 0 <= t < 1 + old(len(append_middleware)), ghost('mw_in', old(ghost('mw_n')) + t + 1) == ghost('mw_out', old(ghost('mw_n')) + t))",
        "C20.append-result": "ref_id(result) == ghost('mw_out', ghost('mw_n') - 1)",
    }
    raises = {"Exception": {"when": None, "frame": False}}
    modifies = PARSE_MOD


@contract(EP + "parse_string#both")
class _:
    sorts = {"bibtex_str": "str", "parse_stack": "list:ref:Middleware", "append_middleware": "list:ref:Middleware", "library": "none", "result": "ref:Library"}
    requires = {"trace-nonneg": "ghost('mw_n') >= 0"}
    loops = _loop("ghost('split_out')")
    ensures = {}
    raises = {"ValueError": {"when": "True", "frame": False, "ensures": {"C20.both-no-middleware-applied": "ghost('mw_n') == old(ghost('mw_n'))"}}}
    modifies = PARSE_MOD


@contract("bibtexparser.writer.write#interface")
class _:
    """interface view of the writer used by write_string (the functional contract of write is C06's, in
    contracts/writer.py): it receives exactly these two arguments and returns their text"""
    trusted = True
    for_callers = [EP + "write_string"]
    sorts = {"library": "ref:Library", "bibtex_format": "optref:ref:BibtexFormat", "result": "str"}
    ensures = {"write-ghost": "ghost('write_in') == ref_id(library) and ghost('write_fmt') == ref_id(bibtex_format) and result == ghost_str('write_out')"}
    raises = {"Exception": {"when": None, "frame": False}}
    modifies = ["ghost:write_in:int", "ghost:write_fmt:int", "ghost:write_out:str"]


def _wloop():
    d = _loop("old(ref_id(library))")
    return d


WRITE_MOD = ["*"] + GHOSTS + ["ghost:write_in:int", "ghost:write_fmt:int", "ghost:write_out:str"]
WRITE_TAIL = {
    "C20.write-gets-last": "ghost('write_in') == (ghost('mw_out', ghost('mw_n') - 1) if ghost('mw_n') > old(ghost('mw_n')) else old(ref_id(library)))",
    "C20.write-gets-format": "ghost('write_fmt') == old(ref_id(bibtex_format))",
    "C20.write-returns-writer-text": "result == ghost_str('write_out')",
}


@contract(EP + "write_string#stack")
class _:
    """write_string(lib, unparse_stack=U): exactly U in order, then the writer with the given format"""
    sorts = {"library": "ref:Library", "unparse_stack": "list:ref:Middleware", "prepend_middleware": "none", "bibtex_format": "optref:ref:BibtexFormat", "result": "str"}
    requires = {"trace-nonneg": "ghost('mw_n') >= 0"}
    loops = _wloop()
    ensures = dict(_stack_ensures("unparse_stack", "old(ref_id(library))", "write"), **WRITE_TAIL)
    raises = {"Exception": {"when": None, "frame": False}}
    modifies = WRITE_MOD


@contract(EP + "write_string#prepend")
class _:
    """write_string(lib, prepend_middleware=P): P in order, then the default write stack, then the writer"""
    sorts = {"library": "ref:Library", "unparse_stack": "none", "prepend_middleware": "list:ref:Middleware", "bibtex_format": "optref:ref:BibtexFormat", "result": "str"}
    requires = {"trace-nonneg": "ghost('mw_n') >= 0"}
    loops = _wloop()
    ensures = dict({
        "C20.prepend-count": "ghost('mw_n') == old(ghost('mw_n')) + old(len(prepend_middleware)) + 1",
        "C20.prepend-given-first": "forall(t, 0 <= t < old(len(prepend_middleware)), ghost('mw_who', old(ghost('mw_n')) + t) == old(ref_id(prepend_middleware[t])))",
        "C20.prepend-then-default": "exists(a, 'ref:Middleware', fresh(a) and cls_is(a, 'AddEnclosingMiddleware') and ghost('mw_who', old(ghost('mw_n')) + old(len(prepend_middleware))) == ref_id(a))",
        "C20.prepend-first-in": "ghost('mw_in', old(ghost('mw_n'))) == old(ref_id(library))",
        "C20.prepend-chain": "forall(t, 0 <= t < old(len(prepend_middleware)), ghost('mw_in', old(ghost('mw_n')) + t + 1) == ghost('mw_out', old(ghost('mw_n')) + t))",
    }, **WRITE_TAIL)
    raises = {"Exception": {"when": None, "frame": False}}
    modifies = WRITE_MOD


@contract(EP + "write_string#default")
class _:
    """write_string(lib): the default write stack (one copy-mode AddEnclosing), then the writer"""
    sorts = {"library": "ref:Library", "unparse_stack": "none", "prepend_middleware": "none", "bibtex_format": "optref:ref:BibtexFormat", "result": "str"}
    requires = {"trace-nonneg": "ghost('mw_n') >= 0"}
    loops = _wloop()
    ensures = dict({
        "C20.default-count": "ghost('mw_n') == old(ghost('mw_n')) + 1",
        "C20.default-stack": "exists(a, 'ref:Middleware', fresh(a) and cls_is(a, 'AddEnclosingMiddleware') and ghost('mw_who', old(ghost('mw_n'))) == ref_id(a))",
        "C20.default-first-in": "ghost('mw_in', old(ghost('mw_n'))) == old(ref_id(library))",
    }, **WRITE_TAIL)
    raises = {"Exception": {"when": None, "frame": False}}
    modifies = WRITE_MOD


@contract(EP + "write_string#both")
class _:
    sorts = {"library": "ref:Library", "unparse_stack": "list:ref:Middleware", "prepend_middleware": "list:ref:Middleware", "bibtex_format": "optref:ref:BibtexFormat", "result": "str"}
    requires = {"trace-nonneg": "ghost('mw_n') >= 0"}
    loops = _wloop()
    ensures = {}
    raises = {"ValueError": {"when": "True", "frame": False, "ensures": {"C20.both-no-middleware-applied": "ghost('mw_n') == old(ghost('mw_n'))"}}}
    modifies = WRITE_MOD


# ---- the file wrappers: parse_file / write_file ---------------------------------------------------------------------------
# open() / read() / write() are opaque (A-IO: they return a file object / a str / an int or raise OSError and write nothing
# modelled).  What is proved is that the wrappers forward their stack arguments unchanged: the ghost trace of middleware
# applications is the one parse_string / write_string produce for those arguments.

@contract(EP + "parse_file#stack")
class _:
    """parse_file(path, parse_stack=S): after reading the file, exactly S applied left to right, each to the previous
    result (the clauses of parse_string#stack)"""
    sorts = {"path": "str", "parse_stack": "list:ref:Middleware", "append_middleware": "none", "encoding": "str", "result": "ref:Library"}
    requires = {"trace-nonneg": "ghost('mw_n') >= 0"}
    ensures = dict(_stack_ensures("parse_stack", "ghost('split_out')", "parse"),
                   **{"C20.parse-result": "implies(old(len(parse_stack)) > 0, ref_id(result) == ghost('mw_out', ghost('mw_n') - 1)) and implies(old(len(parse_stack)) == 0, ref_id(result) == ghost('split_out'))"})
    raises = {"Exception": {"when": None, "frame": False}}
    modifies = PARSE_MOD


@contract(EP + "parse_file#append")
class _:
    """parse_file(path, append_middleware=A): the default stack, then A in order (the clauses of parse_string#append)"""
    sorts = {"path": "str", "parse_stack": "none", "append_middleware": "list:ref:Middleware", "encoding": "str", "result": "ref:Library"}
    requires = {"trace-nonneg": "ghost('mw_n') >= 0"}
    ensures = {
        "C20.append-count": "ghost('mw_n') == old(ghost('mw_n')) + 2 + old(len(append_middleware))",
        "C20.append-then-given": "forall(t, 0 <= t < old(len(append_middleware)), ghost('mw_who', old(ghost('mw_n')) + 2 + t) == old(ref_id(append_middleware[t])))",
    }
    raises = {"Exception": {"when": None, "frame": False}}
    modifies = PARSE_MOD


@contract(EP + "write_file#stack-path")
class _:
    """write_file(path, lib, parse_stack=U): exactly U in order, then the writer with the given format (the clauses of
    write_string#stack); the text goes to the file"""
    sorts = {"file": "str", "library": "ref:Library", "parse_stack": "list:ref:Middleware", "append_middleware": "none", "bibtex_format": "optref:ref:BibtexFormat"}
    requires = {"trace-nonneg": "ghost('mw_n') >= 0"}
    ensures = _stack_ensures("parse_stack", "old(ref_id(library))", "write")
    raises = {"Exception": {"when": None, "frame": False}}
    modifies = WRITE_MOD


@contract(EP + "write_file#prepend-path")
class _:
    """write_file(path, lib, append_middleware=P): what write_string(lib, prepend_middleware=P) applies -- P in order, then
    the default write stack"""
    sorts = {"file": "str", "library": "ref:Library", "parse_stack": "none", "append_middleware": "list:ref:Middleware", "bibtex_format": "optref:ref:BibtexFormat"}
    requires = {"trace-nonneg": "ghost('mw_n') >= 0"}
    ensures = {"C20.file-prepend-count": "ghost('mw_n') == old(ghost('mw_n')) + old(len(append_middleware)) + 1",
               "C20.file-prepend-given-first": "forall(t, 0 <= t < old(len(append_middleware)), ghost('mw_who', old(ghost('mw_n')) + t) == old(ref_id(append_middleware[t])))"}
    raises = {"Exception": {"when": None, "frame": False}}
    modifies = WRITE_MOD


@contract(EP + "write_file#stack-object")
class _:
    """write_file(f, lib, parse_stack=U) with an open file object: the same stack application; the text goes to f.write"""
    sorts = {"file": "ext", "library": "ref:Library", "parse_stack": "list:ref:Middleware", "append_middleware": "none", "bibtex_format": "optref:ref:BibtexFormat"}
    requires = {"trace-nonneg": "ghost('mw_n') >= 0"}
    ensures = _stack_ensures("parse_stack", "old(ref_id(library))", "write")
    raises = {"Exception": {"when": None, "frame": False}}
    modifies = WRITE_MOD
