"""Attribute kinds of the repository's classes (type invariant of every heap the contracts quantify over).

These are the annotations of the repository's own source, made explicit: a contract proved under this
schema speaks about heaps in which e.g. `Field.key` is a str.  `any` slots carry a dynamic value and
every operation on them is checked for the exceptions CPython would raise.
"""
from pyvc.api import schema

schema({
    "Block": {"_start_line_in_file": "any", "_raw": "any", "_parser_metadata": "optref:dict:str:any"},
    "String": {"_key": "str", "_value": "any"},
    "Preamble": {"_value": "str"},
    "ExplicitComment": {"_comment": "str"},
    "ImplicitComment": {"_comment": "str"},
    "Field": {"_start_line": "any", "_key": "str", "_value": "any"},
    "Entry": {"_entry_type": "str", "_key": "str", "_fields": "list:ref:Field"},
    "ParsingFailedBlock": {"_error": "any", "_ignore_error_block": "optref:ref:Block"},
    "DuplicateBlockKeyBlock": {"_key": "str", "_previous_block": "ref:Block"},
    "DuplicateFieldKeyBlock": {"_duplicate_keys": "any"},
    "Library": {"_blocks": "list:ref:Block", "_entries_by_key": "dict:str:ref:Entry", "_strings_by_key": "dict:str:ref:String"},
    "BibtexFormat": {"_indent": "str", "_align_field_values": "any", "_block_separator": "str",
                     "_trailing_comma": "bool", "_parsing_failed_comment": "str"},
    "Middleware": {"_allow_inplace_modification": "bool", "_allow_parallel_execution": "bool"},
    "AddEnclosingMiddleware": {"_default_enclosing": "str", "_reuse_previous_enclosing": "bool", "_enclose_integers": "bool"},
    "BlockAbortedException": {"abort_reason": "any", "end_index": "any"},
    "ParserStateException": {"message": "any"},
    "RegexMismatchException": {"first_match": "any", "expected_match": "any", "second_match": "any"},
    "NameParts": {"first": "list:str", "von": "list:str", "last": "list:str", "jr": "list:str"},
    "_BlockJunk": {"sort_key": "any", "blocks": "list:ref:Block"},
    "SortBlocksByTypeAndKeyMiddleware": {"_block_type_order": "any", "_preserve_comments_on_top": "bool"},
    "SortFieldsCustomMiddleware": {"_case_sensitive": "bool", "_order": "list:str"},
    "_NameTransformerMiddleware": {"_name_fields": "any"},
    "MergeNameParts": {"style": "any"},
    "Splitter": {"bibstr": "str", "_markiter": "iter:marks", "_unaccepted_mark": "match", "_current_line": "int",
                 "_current_char_index": "int", "_open_brackets": "int", "_is_quote_open": "bool",
                 "_expected_next": "any", "_implicit_comment_start_line": "int", "_implicit_comment_start": "any"},
})
