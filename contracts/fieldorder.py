"""Contracts of middlewares/sorting_entry_fields.py and middlewares/fieldkeys.py (property C17)."""
from pyvc.api import contract, pred

SF = "bibtexparser.middlewares.sorting_entry_fields."
FK = "bibtexparser.middlewares.fieldkeys."

FIELD_POS = ("forall(a, 0 <= a < len(entry._fields), ghostfn('c17_pos', ref_id(entry._fields[a])) == a)")


@contract(SF + "SortFieldsAlphabeticallyMiddleware.transform_entry")
class _:
    """the same Field objects, each once, ordered by key (code-point order), ties in source order; values intact"""
    sorts = {"self": "ref:SortFieldsAlphabeticallyMiddleware", "entry": "ref:Entry", "library": "ref:Library", "result": "ref:Entry"}
    requires = {"field-positions": FIELD_POS,        # an owner map: the Field objects of the entry are pairwise distinct
                "meta-dict": "not isnone(entry._parser_metadata)"}
    ensures = {
        "C17.alpha-same-count": "len(entry._fields) == old(len(entry._fields))",
        "C17.alpha-only-old-fields": "forall(i, 0 <= i < len(entry._fields), exists(a, 0 <= a < old(len(entry._fields)), same(entry._fields[i], old(entry._fields[a]))))",
        "C17.alpha-all-old-fields": "forall(a, 0 <= a < old(len(entry._fields)), exists(i, 0 <= i < len(entry._fields), same(entry._fields[i], old(entry._fields[a]))))",
        "C17.alpha-each-once": "forall((i, j), 0 <= i < j < len(entry._fields), not same(entry._fields[i], entry._fields[j]))",
        "C17.alpha-ordered": "forall((i, j), 0 <= i < j < len(entry._fields), entry._fields[i]._key <= entry._fields[j]._key)",
        "C17.alpha-stable": "forall((i, j), 0 <= i < j < len(entry._fields) and entry._fields[i]._key == entry._fields[j]._key, ghostfn('c17_pos', ref_id(entry._fields[i])) < ghostfn('c17_pos', ref_id(entry._fields[j])))",
        "C17.alpha-idempotent": "implies(old(forall((i, j), 0 <= i < j < len(entry._fields), entry._fields[i]._key <= entry._fields[j]._key)), forall(i, 0 <= i < len(entry._fields), same(entry._fields[i], old(entry._fields[i]))))",
        "C17.values-intact": "unchanged('Field._key') and unchanged('Field._value') and unchanged('Entry._key') and unchanged('Entry._entry_type')",
        "C17.same-entry": "same(result, entry)",
    }
    raises = {}
    modifies = ["@entry._fields", "@content(entry._parser_metadata)"]


@pred
def lkey(f):
    """the normalised (lower-cased) form of the key the field had at entry"""
    return was(f, '_key').lower()


@contract(FK + "NormalizeFieldKeys.transform_entry")
class _:
    """all keys lower-case and unique; per key the Field object of its LAST occurrence, in the order of FIRST
    occurrences; no value changed"""
    sorts = {"self": "ref:NormalizeFieldKeys", "entry": "ref:Entry", "library": "ref:Library", "result": "ref:Entry"}
    requires = {"field-positions": FIELD_POS}
    locals = {"seen_normalized_keys": "set:str", "new_fields_dict": "dict:str:ref:Field", "new_fields": "list:ref:Field"}
    loops = {1: {"cursor": "_i", "iter_name": "flds",
                 "invariant": {
                     "range": "0 <= _i <= len(flds) and same(flds, entry._fields) and same(flds, old(entry._fields)) and content_unchanged(flds)",
                     "positions": "forall(a, 0 <= a < len(flds), ghostfn('c17_pos', ref_id(flds[a])) == a)",
                     "keys-done": "forall(j, 0 <= j < _i, flds[j]._key == lkey(flds[j]))",
                     "keys-todo": "forall(j, _i <= j < len(flds), flds[j]._key == was(flds[j], '_key'))",
                     "d-fresh": "fresh(new_fields_dict) and dict_wf(new_fields_dict)",
                     "d-has": "forall(j, 0 <= j < _i, lkey(flds[j]) in new_fields_dict)",
                     "d-val": "forall(k, 'str', k in new_fields_dict, 0 <= ghostfn('c17_pos', ref_id(new_fields_dict[k])) < _i and same(new_fields_dict[k], flds[ghostfn('c17_pos', ref_id(new_fields_dict[k]))]) and lkey(new_fields_dict[k]) == k and forall(j, ghostfn('c17_pos', ref_id(new_fields_dict[k])) < j < _i, lkey(flds[j]) != k))",
                     "d-order": "forall((j1, j2), 0 <= j1 < j2 < _i and forall(h, 0 <= h < j1, lkey(flds[h]) != lkey(flds[j1])) and forall(h, 0 <= h < j2, lkey(flds[h]) != lkey(flds[j2])), dict_pos(new_fields_dict, lkey(flds[j1])) < dict_pos(new_fields_dict, lkey(flds[j2])))",
                 },
                 "props": ("C17",)}}
    ensures = {
        "C17.norm-lower": "forall(t, 0 <= t < len(entry._fields), entry._fields[t]._key == lkey(entry._fields[t]))",
        "C17.norm-unique": "forall((t, u), 0 <= t < u < len(entry._fields), entry._fields[t]._key != entry._fields[u]._key)",
        "C17.norm-old-fields": "forall(t, 0 <= t < len(entry._fields), exists(a, 0 <= a < old(len(entry._fields)), same(entry._fields[t], old(entry._fields[a])) and ghostfn('c17_pos', ref_id(entry._fields[t])) == a))",
        "C17.norm-last-wins": "forall((t, j), 0 <= t < len(entry._fields) and ghostfn('c17_pos', ref_id(entry._fields[t])) < j < old(len(entry._fields)), lkey(old(entry._fields[j])) != entry._fields[t]._key)",
        "C17.norm-covers": "forall(j, 0 <= j < old(len(entry._fields)), exists(t, 0 <= t < len(entry._fields), entry._fields[t]._key == lkey(old(entry._fields[j]))))",
        "C17.values-intact": "unchanged('Field._value') and unchanged('Entry._key') and unchanged('Entry._entry_type')",
        "C17.same-entry": "same(result, entry)",
    }
    raises = {}
    modifies = ["Field._key", "@entry._fields"]


@pred
def rank_in_order(self, f, r):
    """r is the rank of field f in the custom order: the first position of its (lower-cased, unless case sensitive) key in
    the order list, or the length of the list when the key is not listed"""
    return ((0 <= r < len(self._order) and self._order[r] == nkey(self, f) and forall(q, 0 <= q < r, self._order[q] != nkey(self, f)))
            or (r == len(self._order) and forall(q, 0 <= q < len(self._order), self._order[q] != nkey(self, f))))


@pred
def nkey(self, f):
    return f._key if self._case_sensitive else f._key.lower()


@contract(SF + "SortFieldsCustomMiddleware.transform_entry")
class _:
    """the same Field objects, each once, ordered by their rank in the custom order (unlisted keys last), ties in source
    order; values intact.  The sort key is the nested function _sort_key, verified against its own contract (it returns
    the rank and lets no exception out); ghost sort_key[i] is the rank of the i-th field of the result."""
    sorts = {"self": "ref:SortFieldsCustomMiddleware", "entry": "ref:Entry", "library": "ref:Library", "result": "ref:Entry"}
    requires = {"field-positions": FIELD_POS, "meta-dict": "not isnone(entry._parser_metadata)", "order-list": "len(self._order) >= 0"}
    closures = {"_sort_key": {"sorts": {"field": "ref:Field", "result": "int"},
                              "ensures": {"rank": "rank_in_order(self, field, result)"}, "props": ("C17",)}}
    ensures = {
        "C17.custom-same-count": "len(entry._fields) == old(len(entry._fields))",
        "C17.custom-only-old-fields": "forall(i, 0 <= i < len(entry._fields), exists(a, 0 <= a < old(len(entry._fields)), same(entry._fields[i], old(entry._fields[a]))))",
        "C17.custom-all-old-fields": "forall(a, 0 <= a < old(len(entry._fields)), exists(i, 0 <= i < len(entry._fields), same(entry._fields[i], old(entry._fields[a]))))",
        "C17.custom-each-once": "forall((i, j), 0 <= i < j < len(entry._fields), not same(entry._fields[i], entry._fields[j]))",
        "C17.custom-rank": "forall(i, 0 <= i < len(entry._fields), rank_in_order(self, entry._fields[i], ghost('sort_key', i)))",
        "C17.custom-ordered": "forall((i, j), 0 <= i < j < len(entry._fields), ghost('sort_key', i) <= ghost('sort_key', j))",
        "C17.custom-stable": "forall((i, j), 0 <= i < j < len(entry._fields) and ghost('sort_key', i) == ghost('sort_key', j), ghostfn('c17_pos', ref_id(entry._fields[i])) < ghostfn('c17_pos', ref_id(entry._fields[j])))",
        "C17.values-intact": "unchanged('Field._key') and unchanged('Field._value') and unchanged('Entry._key') and unchanged('Entry._entry_type')",
        "C17.same-entry": "same(result, entry)",
    }
    raises = {}
    modifies = ["@entry._fields", "@content(entry._parser_metadata)", "ghost:sort_key:arr", "ghost:sort_src:arr"]


@contract(SF + "SortFieldsCustomMiddleware.__init__")
class _:
    """the order list is stored lower-cased unless case sensitive; an order with a repeated (normalised) key is rejected
    with ValueError"""
    sorts = {"self": "ref:SortFieldsCustomMiddleware", "order": "list:str", "case_sensitive": "bool", "allow_inplace_modification": "bool"}
    ensures = {
        "C17.order-normalised": "len(self._order) == len(order) and forall(t, 0 <= t < len(order), self._order[t] == (order[t] if case_sensitive else order[t].lower())) and self._case_sensitive == case_sensitive",
        "C17.order-unique": "forall((a, b), 0 <= a < b < len(self._order), self._order[a] != self._order[b])",
    }
    raises = {"ValueError": {"when": "exists((a, b), 0 <= a < b < len(order), (order[a] if case_sensitive else order[a].lower()) == (order[b] if case_sensitive else order[b].lower()))"}}
    modifies = ["@self._order", "@self._case_sensitive", "@self._allow_inplace_modification", "@self._allow_parallel_execution"]
